"""The "C02 space": JSON scheme cases built from harness `verif-table` megacomplexes.

case = {
  groups: {gname: {residual_function, link_clp}},
  megacomplexes: {mname: {labels, rates(list of parameter labels), shape, index_dependent}},
  gmegacomplexes: {gname: {labels, rates, shape}},
  datasets: [{label, group, megacomplex, megacomplex_scale|None, scale|None, global_megacomplex|None,
              model_axis, global_axis, transposed, dataset_weight_seed|None, data_seed, noise}],
  constraints/relations/penalties/weights: lists of item dicts (intervals as lists),
  parameters: {group: [values]},  free: [labels], points: [[factor per free label], ...],
  clp_link_tolerance, clp_link_method
}
"""

from __future__ import annotations

import copy

import numpy as np
from hypothesis import strategies as st

LABEL_POOL = ["a", "b", "c", "d", "e"]
NEUTRAL_DS = ["dsA", "dsB", "dsC", "dsD"]
CONFUSABLE_DS = ["a", "b", "ab", "ba", "d1", "d10", "a1", "a1b", "1", "10", "d", "dd"]
GRID = [-1.0, 0.0, 0.5, 1.0, 2.0, 3.5, 4.0, 6.0]
SHAPES = ["exp", "cos", "rat", "gauss"]


def _interval(draw, axis_pool):
    """An interval whose membership decisions are sharp on the grid (no float-fragile bounds)."""
    cand = sorted(set(axis_pool))
    between = [(x + y) / 2 + (y - x) / 8 for x, y in zip(cand[:-1], cand[1:])]  # not midway
    pool = cand + between + [cand[0] - 1.0, cand[-1] + 1.0]
    lo = draw(st.sampled_from(pool + [float("-inf")]))
    hi = draw(st.sampled_from(pool + [float("inf")]))
    if draw(st.integers(0, 5)) == 0:
        lo, hi = hi, lo  # reversed on purpose (may also be naturally reversed)
    if lo == hi and np.isinf(lo):
        hi = cand[-1]
    return [lo, hi]


def _sharp_interval(draw, common, lo_all, hi_all):
    """Interval for index-range items (weights, penalty areas): bounds on points common to the axes
    concerned, beyond all axes, or infinite - so that 'inside' == 'nearest-point range' by construction."""
    los = list(common) + [float("-inf"), lo_all - 1.0]
    his = list(common) + [float("inf"), hi_all + 1.0]
    lo = draw(st.sampled_from(los))
    hi = draw(st.sampled_from([h for h in his if h >= lo] or [float("inf")]))
    if draw(st.integers(0, 4)) == 0:
        lo, hi = hi, lo
    return [lo, hi]


def _maybe_intervals(draw, axis_pool, allow_none=True):
    k = draw(st.integers(0, 3))
    if k == 0 and allow_none:
        return None
    if k <= 2:
        return _interval(draw, axis_pool)
    return [_interval(draw, axis_pool), _interval(draw, axis_pool)]


@st.composite
def schemes(draw, *, labels="neutral", allow_full=True, max_datasets=4, features=True, noise=True, link_tolerance=False):
    n_ds = draw(st.integers(1, max_datasets))
    two_groups = n_ds >= 2 and draw(st.integers(0, 3)) == 0
    groups = {"default": {"residual_function": draw(st.sampled_from(["variable_projection", "variable_projection", "non_negative_least_squares"])),
                          "link_clp": draw(st.sampled_from([True, False, None]))}}
    if two_groups:
        groups["g2"] = {"residual_function": draw(st.sampled_from(["variable_projection", "non_negative_least_squares"])),
                        "link_clp": draw(st.sampled_from([True, False, None]))}
    if labels == "neutral":
        # (declaration order is not the lexicographic order of the labels in a quarter of the cases - as with dataset10 < dataset2)
        ds_labels = list(draw(st.permutations(NEUTRAL_DS[:n_ds]))) if draw(st.integers(0, 3)) == 0 else NEUTRAL_DS[:n_ds]
    else:
        ds_labels = draw(st.lists(st.sampled_from(CONFUSABLE_DS), min_size=n_ds, max_size=n_ds, unique=True))

    # megacomplex pool
    n_mc = draw(st.integers(1, 4))
    params = {"r": [], "s": [], "ds": [], "rel": [], "pen": []}
    free = []
    megacomplexes = {}
    used_rate_vals = []

    def new_rate():
        # keep rates separated (conditioning is C01's domain)
        for _ in range(20):
            v = draw(st.sampled_from([0.15, 0.3, 0.55, 0.9, 1.4, 2.1, 3.0, 0.2, 0.45, 1.1, 1.8, 2.6]))
            if all(abs(v - u) / u > 0.15 for u in used_rate_vals):
                break
        used_rate_vals.append(v)
        params["r"].append(v)
        lab = f"r.{len(params['r'])}"
        return lab

    for i in range(n_mc):
        nl = draw(st.integers(1, 2))
        labs = draw(st.lists(st.sampled_from(LABEL_POOL), min_size=nl, max_size=nl, unique=True))
        megacomplexes[f"m{i+1}"] = {
            "labels": labs,
            "rates": [new_rate() for _ in labs],
            "shape": draw(st.sampled_from(SHAPES)),
            "index_dependent": draw(st.booleans()),
        }
    gmegacomplexes = {}
    datasets = []
    all_global = []
    for i, lab in enumerate(ds_labels):
        group = "g2" if (two_groups and i >= max(1, n_ds // 2)) else "default"
        k = draw(st.integers(1, min(3, n_mc)))
        mcs = draw(st.lists(st.sampled_from(sorted(megacomplexes)), min_size=k, max_size=k, unique=True))
        n_model = draw(st.integers(7, 11))
        start = draw(st.sampled_from([0.0, 0.0, -0.5, 0.25]))
        model_axis = [start + 0.4 * j + (0.07 * (j % 3)) for j in range(n_model)]
        n_glob = draw(st.integers(1, 5))
        off = draw(st.integers(0, len(GRID) - n_glob))
        if draw(st.booleans()):
            global_axis = GRID[off : off + n_glob]
        else:
            global_axis = sorted(draw(st.lists(st.sampled_from(GRID), min_size=n_glob, max_size=n_glob, unique=True)))
        if draw(st.integers(0, 5)) == 0:
            n_model = draw(st.integers(6, 8))  # a square (n_model == n_global) dataset
            model_axis = [start + 0.4 * j + (0.07 * (j % 3)) for j in range(n_model)]
            global_axis = GRID[:n_model]
        all_global += global_axis
        d = {
            "label": lab,
            "group": group,
            "megacomplex": mcs,
            "megacomplex_scale": None,
            "scale": None,
            "global_megacomplex": None,
            "model_axis": model_axis,
            "global_axis": global_axis,
            "transposed": draw(st.booleans()),
            "dataset_weight_seed": None,
            "data_seed": draw(st.integers(0, 2**31 - 1)),
            "noise": draw(st.sampled_from([0.0, 0.01, 0.1])) if noise else 0.0,
            "data_sign": draw(st.sampled_from([1, 1, -1])),  # negative data: NNLS solutions with an active constraint
        }
        if features and draw(st.integers(0, 2)) == 0:
            d["megacomplex_scale"] = []
            for _ in mcs:
                params["s"].append(draw(st.sampled_from([0.5, 2.0, 1.0, 3.0, 0.25])))
                d["megacomplex_scale"].append(f"s.{len(params['s'])}")
        if features and draw(st.integers(0, 2)) == 0:
            params["ds"].append(draw(st.sampled_from([0.5, 2.0, 3.0, 0.1, 1.0])))
            d["scale"] = f"ds.{len(params['ds'])}"
        if features and draw(st.integers(0, 3)) == 0:
            d["dataset_weight_seed"] = draw(st.integers(0, 1000))
        datasets.append(d)

    # full model on some datasets (only when the group is not explicitly linked)
    if allow_full:
        for d in datasets:
            g = groups[d["group"]]
            if g["link_clp"] is not True and d["scale"] is None and draw(st.integers(0, 4)) == 0:
                nl = draw(st.integers(1, 2))
                name = f"gm{len(gmegacomplexes)+1}"
                gmegacomplexes[name] = {
                    "labels": [f"g{j}" for j in range(nl)],
                    "rates": [new_rate() for _ in range(nl)],
                    "shape": draw(st.sampled_from(["exp", "rat", "gauss"])),
                }
                d["global_megacomplex"] = [name]
                if len(d["global_axis"]) < nl + 1:
                    d["global_axis"] = GRID[: nl + 2]
    # a linked group must not contain a full-model dataset: if link_clp is None the code decides -> fine

    constraints, relations, penalties, weights = [], [], [], []
    if features:
        present = sorted({l for m in megacomplexes.values() for l in m["labels"]})
        pool = sorted(set(all_global))
        axes = [set(d["global_axis"]) for d in datasets]
        common = sorted(set.intersection(*axes))
        lo_all, hi_all = min(pool), max(pool)
        related = []
        rel_pairs = []
        if len(present) >= 2:
            for _ in range(draw(st.sampled_from([0, 1, 1, 2]))):
                # a label is the target of at most one relation and never both a source and a target (chains are undefined)
                free_labels = [l for l in present if l not in related]
                srcs = [l for l in present if l not in [t_ for _, t_ in rel_pairs]]
                if len(free_labels) < 1 or len(srcs) < 1:
                    break
                t = draw(st.sampled_from(free_labels))
                cand = [l for l in srcs if l != t]
                if not cand:
                    break
                s = draw(st.sampled_from(cand))
                rel_pairs.append((s, t))
                params["rel"].append(draw(st.sampled_from([0.5, 2.0, 1.5, -0.5])))
                relations.append({"source": s, "target": t, "parameter": f"rel.{len(params['rel'])}",
                                  "interval": _maybe_intervals(draw, pool)})
                related += [s, t]
            for _ in range(draw(st.integers(0, 1))):
                s, t = draw(st.lists(st.sampled_from(present), min_size=2, max_size=2, unique=True))
                params["pen"].append(draw(st.sampled_from([0.5, 2.0, 1.0])))
                penalties.append({"type": "equal_area", "source": s, "target": t, "parameter": f"pen.{len(params['pen'])}",
                                  "source_intervals": [_sharp_interval(draw, common, lo_all, hi_all) for _ in range(draw(st.integers(1, 2)))],
                                  "target_intervals": [_sharp_interval(draw, common, lo_all, hi_all) for _ in range(draw(st.integers(1, 2)))],
                                  "weight": draw(st.sampled_from([0.1, 1.0, 3.0]))})
        # constraints may also hit related clps: on the source, or on the target on another interval, the statement
        # defines the outcome (source 0 => target p*0; target constrained only where the relation does not apply)
        ds_labels_sets = [sorted({l for m in d["megacomplex"] for l in megacomplexes[m]["labels"]}) for d in datasets]
        rel_targets = {t_ for _, t_ in rel_pairs}
        constrained = set()
        for _ in range(draw(st.integers(0, 2))):
            iv = _maybe_intervals(draw, pool)
            kind = draw(st.sampled_from(["zero", "only"]))
            tpool = related if (related and draw(st.booleans())) else present
            # construction over rejection: every dataset keeps at least one clp that is neither constrained nor a relation target
            ok = [l for l in tpool if all(any(o != l and o not in constrained and o not in rel_targets for o in ls) for ls in ds_labels_sets if l in ls)]
            if not ok:
                continue
            t = draw(st.sampled_from(ok))
            constrained.add(t)
            constraints.append({"type": kind, "target": t, "interval": iv})
        for _ in range(draw(st.integers(0, 1))):
            k = draw(st.integers(1, len(datasets)))
            wl = draw(st.lists(st.sampled_from([d["label"] for d in datasets]), min_size=k, max_size=k, unique=True))
            mpool = sorted({x for d in datasets for x in d["model_axis"]})
            wds = [d for d in datasets if d["label"] in wl]
            gcommon = sorted(set.intersection(*[set(d["global_axis"]) for d in wds]))
            mcommon = sorted(set.intersection(*[set(d["model_axis"]) for d in wds]))
            weights.append({"datasets": wl,
                            "global_interval": None if draw(st.booleans()) else _sharp_interval(draw, gcommon, lo_all, hi_all),
                            "model_interval": None if draw(st.booleans()) else _sharp_interval(draw, mcommon, min(mpool), max(mpool)),
                            "value": draw(st.sampled_from([0.5, 2.0, 0.1]))})

    # which parameters are free
    for grp, vals in params.items():
        for j in range(len(vals)):
            lab = f"{grp}.{j+1}"
            if grp == "r" or draw(st.booleans()):
                free.append(lab)
    npts = 2
    points = [[draw(st.sampled_from([0.8, 0.9, 1.1, 1.25])) for _ in free] for _ in range(npts)]
    case = {
        "groups": groups,
        "megacomplexes": megacomplexes,
        "gmegacomplexes": gmegacomplexes,
        "datasets": datasets,
        "constraints": constraints,
        "relations": relations,
        "penalties": penalties,
        "weights": weights,
        "parameters": {k: v for k, v in params.items() if v},
        "free": free,
        "points": points,
        "clp_link_tolerance": 0.0,
        "clp_link_method": "nearest",
    }
    for d in datasets:
        if draw(st.integers(0, 3)) == 0:
            # the same numbers in another representation: single precision / integer counts, Fortran order, a strided view,
            # a read-only array, integer axis coordinates (where the axis values are whole numbers)
            d["repr"] = {"dtype": draw(st.sampled_from(["float64", "float32", "int64"])),
                         "layout": draw(st.sampled_from(["C", "F", "strided", "readonly"])),
                         "axis_int": draw(st.booleans())}
    if not any(w.get("model_interval") is not None for w in weights) and draw(st.integers(0, 5)) == 0:
        # likewise the model axis (e.g. a time axis recorded backwards), unless an item acts on an index range of it
        for d in datasets:
            d["model_axis"] = list(d["model_axis"])[::-1]
        case["model_axis_order"] = "descending"
    range_items = bool(penalties) or any(w.get("global_interval") is not None for w in weights)
    if not range_items and draw(st.integers(0, 3)) == 0:
        # global axes as instruments deliver them: descending (wavenumbers), or in acquisition order.  Items that act on index
        # *ranges* of the global axis (penalty areas, weight intervals) are kept to ascending axes - what a range means on an
        # unsorted axis is not stated; constraints and relations act by value.
        kind = draw(st.sampled_from(["descending", "first_descending", "shuffled"]))
        for i, d in enumerate(datasets):
            if kind == "descending" or (kind == "first_descending" and i == 0):
                d["global_axis"] = list(d["global_axis"])[::-1]
            elif kind == "shuffled":
                d["global_axis"] = list(draw(st.permutations(list(d["global_axis"]))))
        case["global_axis_order"] = kind
    if draw(st.integers(0, 5)) == 0:
        # a longer parameter group: eight fixed, unused rates first, so that the rates the model uses are r.9, r.10, r.11 ... -
        # definition order and the (string-)sorted order of the labels differ ('r.10' < 'r.9')
        off = 8

        def shift(label):
            return f"r.{int(label.split('.')[1]) + off}" if label.startswith("r.") else label

        case["parameters"]["r"] = [0.7] * off + list(case["parameters"]["r"])
        for m in list(case["megacomplexes"].values()) + list(case["gmegacomplexes"].values()):
            m["rates"] = [shift(x) for x in m["rates"]]
        case["free"] = [shift(x) for x in case["free"]]
        case["rate_label_offset"] = off
    if link_tolerance and draw(st.booleans()):
        # exactly representable tolerances against grid spacings 0.5 / 1 / 1.5 / 2 (sharp decisions), all methods
        case["clp_link_tolerance"] = draw(st.sampled_from([0.25, 0.5, 0.75, 1.0, 1.5]))
        case["clp_link_method"] = draw(st.sampled_from(["nearest", "backward", "forward"]))
        for d in datasets[1:]:
            # whole-number coordinates of a later dataset as an integer array: aligned to the (fractional) points of an earlier one
            if all(float(g).is_integer() for g in d["global_axis"]) and draw(st.booleans()):
                d.setdefault("repr", {"dtype": "float64", "layout": "C"})["axis_int"] = True
    return case


# ------------------------------------------------------------------------------------------


def _tup(iv):
    if iv is None:
        return None
    if len(iv) == 2 and not isinstance(iv[0], (list, tuple)):
        return (float(iv[0]), float(iv[1]))
    return [(float(a), float(b)) for a, b in iv]


def model_spec(case):
    spec = {
        "dataset_groups": copy.deepcopy(case["groups"]),
        "megacomplex": {},
        "dataset": {},
    }
    for name, m in case["megacomplexes"].items():
        spec["megacomplex"][name] = {"type": "verif-table", **copy.deepcopy(m)}
    for name, m in case.get("gmegacomplexes", {}).items():
        spec["megacomplex"][name] = {"type": "verif-table-g", **copy.deepcopy(m)}
    for d in case["datasets"]:
        dd = {"group": d["group"], "megacomplex": list(d["megacomplex"])}
        if d.get("megacomplex_scale"):
            dd["megacomplex_scale"] = list(d["megacomplex_scale"])
        if d.get("scale"):
            dd["scale"] = d["scale"]
        if d.get("global_megacomplex"):
            dd["global_megacomplex"] = list(d["global_megacomplex"])
        spec["dataset"][d["label"]] = dd
    if case.get("constraints"):
        spec["clp_constraints"] = [
            {"type": c["type"], "target": c["target"], **({"interval": _tup(c["interval"])} if c["interval"] is not None else {})}
            for c in case["constraints"]
        ]
    if case.get("relations"):
        spec["clp_relations"] = [
            {"source": r["source"], "target": r["target"], "parameter": r["parameter"],
             **({"interval": _tup(r["interval"])} if r["interval"] is not None else {})}
            for r in case["relations"]
        ]
    if case.get("penalties"):
        spec["clp_penalties"] = [
            {"type": "equal_area", "source": p["source"], "target": p["target"], "parameter": p["parameter"],
             "source_intervals": [tuple(map(float, i)) for i in p["source_intervals"]],
             "target_intervals": [tuple(map(float, i)) for i in p["target_intervals"]], "weight": p["weight"]}
            for p in case["penalties"]
        ]
    if case.get("weights"):
        spec["weights"] = [
            {"datasets": list(w["datasets"]), "value": w["value"],
             **({"global_interval": tuple(map(float, w["global_interval"]))} if w["global_interval"] is not None else {}),
             **({"model_interval": tuple(map(float, w["model_interval"]))} if w["model_interval"] is not None else {})}
            for w in case["weights"]
        ]
    return spec


def parameter_dict(case):
    out = {}
    free = set(case["free"])
    for grp, vals in case["parameters"].items():
        nn = set(case.get("non_negative", []))
        out[grp] = [[v, {"vary": f"{grp}.{j+1}" in free, "non-negative": f"{grp}.{j+1}" in nn}] for j, v in enumerate(vals)]
    if case.get("expr_param"):
        # a parameter defined by an expression on a free parameter (not used by the model): must follow r.1, must never
        # leak into the caller's parameters, is never handed to the optimiser
        # (with a long group the referenced label is r.10, of which the label r.1 is a textual prefix)
        k = (2 if len(case["parameters"]["r"]) - case.get("rate_label_offset", 0) >= 2 else 1) + case.get("rate_label_offset", 0)
        out["x"] = [["dbl", {"expr": f"$r.{k} * 2 + 1"}]]
    return out


def dataset_arrays(d):
    """Raw (model, global) data and optional dataset weight, from explicit seeds."""
    rng = np.random.default_rng(d["data_seed"])
    nm, ng = len(d["model_axis"]), len(d["global_axis"])
    t = np.asarray(d["model_axis"])[:, None]
    g = np.asarray(d["global_axis"])[None, :]
    base = np.exp(-0.5 * np.abs(t)) * (1.0 + 0.3 * np.cos(g)) + 0.5 / (1 + t * t) * (0.5 + 0.1 * g)
    data = d.get("data_sign", 1) * base * (1 + rng.uniform(-0.2, 0.2)) + d["noise"] * rng.standard_normal((nm, ng)) + 0.05 * rng.standard_normal((nm, ng))
    rep = d.get("repr") or {}
    if rep.get("dtype") == "float32":
        data = data.astype(np.float32).astype(np.float64)  # the values a float32 file holds
    elif rep.get("dtype") == "int64":
        data = np.round(data * 1000.0)  # detector counts
    weight = None
    if d.get("dataset_weight_seed") is not None:
        wr = np.random.default_rng(d["dataset_weight_seed"])
        weight = wr.uniform(0.5, 2.0, (nm, ng))
    return data, weight


def _represent(arr, rep):
    """The same values in the memory representation ``rep`` asks for (dtype, Fortran order, strided view, read-only)."""
    rep = rep or {}
    out = arr.astype({"float32": np.float32, "int64": np.int64}.get(rep.get("dtype"), np.float64))
    layout = rep.get("layout", "C")
    if layout == "F":
        out = np.asfortranarray(out)
    elif layout == "strided":
        big = np.zeros((out.shape[0] * 2, out.shape[1] * 2), dtype=out.dtype)
        big[::2, ::2] = out
        out = big[::2, ::2]
    elif layout == "readonly":
        out = out.copy()
        out.setflags(write=False)
    return out


def build(case):
    """-> (Scheme kwargs pieces): model, parameters, data dict of xr.Dataset."""
    import xarray as xr

    from vlib import testmc

    model, parameters = testmc.make_model(model_spec(case), parameter_dict(case))
    data = {}
    for d in case["datasets"]:
        arr, weight = dataset_arrays(d)
        coords = {"model": np.asarray(d["model_axis"], dtype=float), "global": np.asarray(d["global_axis"], dtype=float)}
        rep = d.get("repr") or {}
        if rep.get("axis_int") and all(float(g).is_integer() for g in d["global_axis"]):
            coords["global"] = np.asarray(d["global_axis"], dtype=np.int64)
        if d["transposed"]:
            ds = xr.Dataset({"data": (("global", "model"), _represent(arr.T.copy(), rep))}, coords=coords)
            if weight is not None:
                ds["weight"] = (("global", "model"), weight.T.copy())
        else:
            ds = xr.Dataset({"data": (("model", "global"), _represent(arr.copy(), rep))}, coords=coords)
            if weight is not None:
                ds["weight"] = (("model", "global"), weight.copy())
        data[d["label"]] = ds
    return model, parameters, data


def make_scheme(case, **kw):
    from glotaran.project import Scheme

    model, parameters, data = build(case)
    args = dict(clp_link_tolerance=case.get("clp_link_tolerance", 0.0), clp_link_method=case.get("clp_link_method", "nearest"))
    args.update(kw)
    return Scheme(model, parameters, data, **args)


@st.composite
def fit_cases(draw, **kw):
    case = draw(schemes(**kw))
    case["method"] = draw(st.sampled_from(["TrustRegionReflection", "Dogbox", "Levenberg-Marquardt"]))
    case["max_nfev"] = draw(st.integers(2, 6))
    case["add_svd"] = draw(st.integers(0, 4)) == 0
    if draw(st.integers(0, 5)) == 0:
        # a free parameter the model does not use (rank-deficient Jacobian)
        case["parameters"]["u"] = [1.0]
        case["free"] = list(case["free"]) + ["u.1"]
        case["points"] = [list(p) + [1.0] for p in case["points"]]
    nn = [l for l in case["free"] if l.startswith("r.") and draw(st.integers(0, 3)) == 0]
    case["non_negative"] = nn
    case["expr_param"] = draw(st.booleans())
    return case


NUMERICAL_BREAKDOWN = ("must not contain infs or NaNs", "Residuals are not finite", "Maximum number of iterations", "SVD did not converge",
                       "x0` is infeasible", "Singular matrix", "Non-finite")


def run_fit(case, **kw):
    """optimize(raise_exception=True); an optimiser that steps out of the finite domain of the model (overflowing exp, NNLS on a
    non-finite matrix, ...) is not a statement of any property about *results*: Discard, counted."""
    from vlib.core import Discard

    try:
        return _run_fit(case, **kw)
    except Exception as e:  # noqa: BLE001
        if any(m in str(e) for m in NUMERICAL_BREAKDOWN):
            raise Discard("optimiser left the finite domain of the model") from e
        raise


def _run_fit(case, **kw):
    from glotaran.optimization.optimize import optimize

    scheme = make_scheme(case, maximum_number_function_evaluations=case.get("max_nfev", 3),
                         optimization_method=case.get("method", "TrustRegionReflection"), add_svd=case.get("add_svd", False), **kw)
    return scheme, optimize(scheme, verbose=False, raise_exception=True)
