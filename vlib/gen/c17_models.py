"""C17 - model-spec grammar over the built-in megacomplexes (cases are plain JSON data).

``model_cases()`` is the Hypothesis strategy, ``build(case)`` turns a case into
``(spec, parameter_dict_list, datasets)`` where ``spec`` is the python model specification with
*tuple* K-matrix keys and *tuple* intervals exactly where the case says ``"tuple"`` (JSON has no
tuples, so every interval in a case is ``{"kind": "tuple"|"list_of_tuples"|"list_of_lists", "v": ...}``).

Construction over rejection: every generated model is valid and evaluable
 * compartment ``c0`` is never constrained and never a relation target (every index keeps an
   unconstrained clp), constraint targets and relation targets are disjoint,
 * coherent artifacts only on datasets with an IRF, one global axis shared by all datasets (so linked
   groups align exactly), full-model datasets only in their own unlinked group.
"""

from __future__ import annotations

import copy

import numpy as np
from hypothesis import strategies as st

INF = float("inf")

COMP_POOLS = [["s1", "s2", "s3"], ["A", "B", "C"], ["1", "2", "3"], ["sp_a", "sp_b", "x9"]]
DATASET_LABELS = ["d1", "d2", "ds_3"]
LABEL_SCHEMES = ["nested", "flat", "numeric"]
BOUNDS = [595, 600, 612.5, 625, 640.25, 650, 662.5, 680, 700, 705, 1e3, 6.5e2]


@st.composite
def intervals(draw, allow_tuple=True, allow_inf=True):
    def one():
        pool = BOUNDS + ([-INF, INF] if allow_inf else [])
        lo = draw(st.sampled_from(pool))
        hi = draw(st.sampled_from(pool))
        if lo == hi and abs(lo) == INF:
            hi = 650
        if draw(st.booleans()) and abs(lo) != INF and float(lo).is_integer():
            lo = int(lo)
        return [lo, hi]

    kinds = ["list_of_tuples", "list_of_lists"] + (["tuple", "tuple"] if allow_tuple else [])
    kind = draw(st.sampled_from(kinds))
    if kind == "tuple":
        return {"kind": kind, "v": one()}
    return {"kind": kind, "v": [one() for _ in range(draw(st.integers(1, 3)))]}


@st.composite
def model_cases(draw):
    n = draw(st.integers(1, 3))
    irf_type = draw(st.sampled_from([None, "gaussian", "gaussian", "multi-gaussian", "spectral-gaussian"]))
    irf = None
    if irf_type is not None:
        irf = {
            "type": irf_type,
            "n": draw(st.integers(1, 2)) if irf_type == "multi-gaussian" else 1,
            "scale": draw(st.booleans()),
            "shift": draw(st.booleans()),
            "normalize": draw(st.booleans()),
            "backsweep": draw(st.booleans()),
            "n_width_disp": draw(st.integers(0, 2)),
            "wavenumber": draw(st.booleans()),
        }
    n_ds = draw(st.integers(1, 3))
    n_groups = draw(st.integers(1, 2))
    groups = []
    for g in range(n_groups):
        groups.append(
            {
                "residual_function": draw(st.sampled_from(["variable_projection", "non_negative_least_squares"])),
                "link_clp": draw(st.sampled_from([None, True, False])),
                "explicit": draw(st.booleans()) if g == 0 else True,
            }
        )
    datasets = []
    for _ in range(n_ds):
        has_irf = irf is not None and draw(st.integers(0, 4)) > 0
        datasets.append(
            {
                "group": draw(st.integers(0, n_groups - 1)),
                "irf": has_irf,
                "baseline": draw(st.booleans()),
                "artifact": has_irf and draw(st.booleans()),
                "doas": draw(st.booleans()),
                "scale": draw(st.booleans()),
                "mc_scale": draw(st.booleans()),
                "nt": draw(st.integers(24, 36)),
            }
        )
    constraints, relations, penalties = [], [], []
    if n >= 2:
        for _ in range(draw(st.integers(0, 2))):
            constraints.append(
                {"type": draw(st.sampled_from(["zero", "only"])), "target": 1, "interval": draw(st.one_of(st.none(), intervals()))}
            )
        rel_target = 2 if n >= 3 else (1 if not constraints else None)
        if rel_target is not None and draw(st.booleans()):
            relations.append({"source": 0, "target": rel_target, "interval": draw(st.one_of(st.none(), intervals()))})
        for _ in range(draw(st.integers(0, 1))):
            penalties.append(
                {
                    "source": 0,
                    "target": draw(st.integers(1, n - 1)),
                    "source_intervals": draw(intervals(allow_tuple=False)),
                    "target_intervals": draw(intervals(allow_tuple=False)),
                    "weight": draw(st.sampled_from([0.1, 1, 2.5, 1e-05, 1e20])),
                }
            )
    weights = []
    for _ in range(draw(st.integers(0, 2))):
        weights.append(
            {
                "datasets": sorted(draw(st.sets(st.integers(0, n_ds - 1), min_size=1))),
                "global_interval": draw(st.one_of(st.none(), intervals().filter(lambda i: i["kind"] == "tuple"))),
                "model_interval": draw(st.sampled_from([None, [0, 2], [-INF, 1.5], [0.5, INF]])),
                "value": draw(st.sampled_from([0.5, 2, 0.1, 1e-3, 12.25])),
            }
        )
    return {
        "label_scheme": draw(st.sampled_from(LABEL_SCHEMES)),
        "comp_pool": draw(st.integers(0, len(COMP_POOLS) - 1)),
        "n_comp": n,
        "kinetics": draw(st.sampled_from(["sequential", "parallel", "branched"])),
        "k_split": draw(st.booleans()),
        "ic_exclude": draw(st.booleans()),
        "irf": irf,
        "artifact": {"order": draw(st.integers(1, 3)), "width": draw(st.booleans())},
        "n_osc": draw(st.integers(1, 2)),
        "datasets": datasets,
        "groups": groups,
        "constraints": constraints,
        "relations": relations,
        "penalties": penalties,
        "weights": weights,
        "full": draw(st.sampled_from([None, None, {"shapes": [draw(st.sampled_from(["gaussian", "gaussian-noamp", "skewed-gaussian", "one", "zero"])) for _ in range(3)],
                                                    "inverted": draw(st.booleans()), "axis_scale": draw(st.sampled_from([1, 1.5]))}])),
        "n_global": draw(st.integers(3, 6)),
        "free_everything": draw(st.booleans()),
        "seed": draw(st.integers(0, 2**32 - 1)),
    }


def decode_interval(iv):
    """Case interval -> python value with tuples where the case says so."""
    if iv is None:
        return None
    if iv["kind"] == "tuple":
        return tuple(iv["v"])
    if iv["kind"] == "list_of_tuples":
        return [tuple(x) for x in iv["v"]]
    return [list(x) for x in iv["v"]]


class _Params:
    def __init__(self, scheme, rng, free_everything):
        self.scheme = scheme
        self.rng = rng
        self.free_everything = free_everything
        self.items = []

    def add(self, group, sub, value, vary=False):
        i = len(self.items) + 1
        k = sum(1 for it in self.items if it["_g"] == (group, sub)) + 1
        if self.scheme == "nested":
            label = f"{group}.{sub}.{k}"
        elif self.scheme == "flat":
            label = f"{group}_{sub}.{k}"
        else:
            label = f"{i}"
        self.items.append({"label": label, "value": float(value), "vary": bool(vary or self.free_everything), "_g": (group, sub)})
        return label

    def dict_list(self):
        return [{k: v for k, v in it.items() if k != "_g"} for it in self.items]


def build(case):
    """-> (spec with tuples, parameter dict list, {label: xr.Dataset}, info)."""
    import xarray as xr

    rng = np.random.default_rng(case["seed"])
    comps = COMP_POOLS[case["comp_pool"]][: case["n_comp"]]
    n = len(comps)
    P = _Params(case["label_scheme"], rng, case["free_everything"])
    spec: dict = {}

    # kinetics: tuple-keyed K-matrices ------------------------------------------------------------
    rates = [0.9 / (1.9**j) * (1 + 0.1 * rng.uniform()) for j in range(n)]
    entries = []
    if case["kinetics"] == "parallel" or n == 1:
        for j in range(n):
            entries.append(((comps[j], comps[j]), P.add("kin", "rates", rates[j], vary=True)))
    elif case["kinetics"] == "sequential":
        for j in range(n - 1):
            entries.append(((comps[j + 1], comps[j]), P.add("kin", "rates", rates[j], vary=True)))
        entries.append(((comps[-1], comps[-1]), P.add("kin", "rates", rates[-1], vary=True)))
    else:  # branched: c0 -> c1, c0 -> c2, every compartment decays
        for j in range(1, n):
            entries.append(((comps[j], comps[0]), P.add("kin", "rates", rates[j] * 0.7, vary=True)))
        for j in range(n):
            entries.append(((comps[j], comps[j]), P.add("kin", "decay", rates[j] * 0.31 * (j + 1), vary=True)))
    if case["k_split"] and len(entries) >= 2:
        cut = len(entries) // 2
        spec["k_matrix"] = {"km1": {"matrix": dict(entries[:cut])}, "km_2": {"matrix": dict(entries[cut:])}}
        kms = ["km1", "km_2"]
    else:
        spec["k_matrix"] = {"km1": {"matrix": dict(entries)}}
        kms = ["km1"]
    spec["megacomplex"] = {"dec": {"type": "decay", "k_matrix": kms}}
    ic = {"compartments": list(comps), "parameters": [P.add("inputs", "ic", 1.0 if j == 0 or case["kinetics"] == "parallel" else 0.0) for j in range(n)]}
    if case["ic_exclude"]:
        ic["exclude_from_normalize"] = [comps[-1]]
    spec["initial_concentration"] = {"ic": ic}

    n_g = case["n_global"]
    g_axis = np.linspace(600.0, 700.0, n_g)

    # irf ---------------------------------------------------------------------------------------
    irf = case["irf"]
    if irf is not None:
        t = irf["type"]
        d: dict = {"type": t}
        if t == "multi-gaussian":
            d["center"] = [P.add("irf", "center", 0.3 + 0.2 * j) for j in range(irf["n"])]
            d["width"] = [P.add("irf", "width", 0.2 + 0.1 * j) for j in range(irf["n"])]
            if irf["scale"]:
                d["scale"] = [P.add("irf", "scale", 1.0 - 0.3 * j) for j in range(irf["n"])]
        else:
            d["center"] = P.add("irf", "center", 0.3, vary=True)
            d["width"] = P.add("irf", "width", 0.25)
        if t == "spectral-gaussian":
            d["dispersion_center"] = P.add("irf", "dispc", 650.0)
            d["center_dispersion_coefficients"] = [P.add("irf", "cdc", 0.05)]
            if irf["n_width_disp"]:
                d["width_dispersion_coefficients"] = [P.add("irf", "wdc", 0.01 * (j + 1)) for j in range(irf["n_width_disp"])]
            if irf["wavenumber"]:
                d["model_dispersion_with_wavenumber"] = True
        elif irf["shift"]:
            d["shift"] = [P.add("irf", "shift", 0.02 * j) for j in range(n_g)]
        if not irf["normalize"]:
            d["normalize"] = False
        if irf["backsweep"]:
            d["backsweep"] = True
            d["backsweep_period"] = P.add("irf", "bsp", 13.0)
        spec["irf"] = {"irf1": d}

    any_bl = any(d["baseline"] for d in case["datasets"])
    any_ca = any(d["artifact"] for d in case["datasets"])
    any_osc = any(d["doas"] for d in case["datasets"])
    if any_bl:
        spec["megacomplex"]["bl"] = {"type": "baseline", "dimension": "time"}
    if any_ca:
        ca = {"type": "coherent-artifact", "order": case["artifact"]["order"]}
        if case["artifact"]["width"]:
            ca["width"] = P.add("irf", "cawidth", 0.15)
        spec["megacomplex"]["ca"] = ca
    if any_osc:
        no = case["n_osc"]
        spec["megacomplex"]["osc"] = {
            "type": "damped-oscillation",
            "labels": [f"osc{j+1}" for j in range(no)],
            "frequencies": [P.add("osc", "freq", 0.8 + 0.7 * j) for j in range(no)],
            "rates": [P.add("osc", "rate", 0.2 + 0.1 * j) for j in range(no)],
        }

    # clp items ---------------------------------------------------------------------------------
    if case["constraints"]:
        spec["clp_constraints"] = []
        for c in case["constraints"]:
            item = {"type": c["type"], "target": comps[c["target"]]}
            if c["interval"] is not None:
                item["interval"] = decode_interval(c["interval"])
            spec["clp_constraints"].append(item)
    if case["relations"]:
        spec["clp_relations"] = []
        for r in case["relations"]:
            item = {"source": comps[r["source"]], "target": comps[r["target"]], "parameter": P.add("rel", "r", 0.6)}
            if r["interval"] is not None:
                item["interval"] = decode_interval(r["interval"])
            spec["clp_relations"].append(item)
    if case["penalties"]:
        spec["clp_penalties"] = [
            {
                "type": "equal_area",
                "source": comps[p["source"]],
                "source_intervals": decode_interval(p["source_intervals"]),
                "target": comps[p["target"]],
                "target_intervals": decode_interval(p["target_intervals"]),
                "parameter": P.add("pen", "area", 0.8),
                "weight": p["weight"],
            }
            for p in case["penalties"]
        ]

    # datasets and groups -------------------------------------------------------------------------
    labels = DATASET_LABELS[: len(case["datasets"])]
    group_labels = ["default", "grp_2"][: len(case["groups"])]
    used_groups = {d["group"] for d in case["datasets"]}
    dg = {}
    for gi, g in enumerate(case["groups"]):
        if g["explicit"] or gi > 0:
            if gi in used_groups or gi == 0:
                dg[group_labels[gi]] = {"residual_function": g["residual_function"], "link_clp": g["link_clp"]}
    spec["dataset"] = {}
    for lbl, d in zip(labels, case["datasets"]):
        mcs = ["dec"] + (["bl"] if d["baseline"] else []) + (["ca"] if d["artifact"] else []) + (["osc"] if d["doas"] else [])
        dm: dict = {"megacomplex": mcs, "initial_concentration": "ic"}
        if d["group"] != 0:
            dm["group"] = group_labels[d["group"]]
        if d["irf"]:
            dm["irf"] = "irf1"
        if d["scale"]:
            dm["scale"] = P.add("scale", "ds", 0.8 + 0.3 * rng.uniform())
        if d["mc_scale"]:
            dm["megacomplex_scale"] = [P.add("scale", "mc", 1.0 + 0.2 * j) for j in range(len(mcs))]
        spec["dataset"][lbl] = dm
    if case["weights"]:
        spec["weights"] = []
        for w in case["weights"]:
            item = {"datasets": [labels[i] for i in w["datasets"]], "value": w["value"]}
            if w["global_interval"] is not None:
                item["global_interval"] = decode_interval(w["global_interval"])
            if w["model_interval"] is not None:
                item["model_interval"] = tuple(w["model_interval"])
            spec["weights"].append(item)

    # full model dataset (spectral shapes as global megacomplex) ----------------------------------------
    full = case["full"]
    if full is not None:
        shapes = {}
        mapping = {}
        for j, c in enumerate(comps):
            kind = full["shapes"][j]
            sl = f"sh{j+1}"
            if kind.startswith("gaussian") or kind == "skewed-gaussian":
                sd = {"type": "gaussian" if kind != "skewed-gaussian" else kind,
                      "location": P.add("shape", "loc", 620.0 + 25 * j), "width": P.add("shape", "width", 30.0 + 5 * j)}
                if kind != "gaussian-noamp":
                    sd["amplitude"] = P.add("shape", "amp", 1.0 + j)
                if kind == "skewed-gaussian":
                    sd["skewness"] = P.add("shape", "skew", 0.2)
            else:
                sd = {"type": kind}
            shapes[sl] = sd
            mapping[c] = sl
        spec["shape"] = shapes
        spec["megacomplex"]["spec"] = {"type": "spectral", "shape": mapping}
        dg.setdefault("default", {"residual_function": "variable_projection", "link_clp": None})
        dg["g_full"] = {"residual_function": "variable_projection", "link_clp": False}
        dm = {"group": "g_full", "megacomplex": ["dec"], "global_megacomplex": ["spec"], "initial_concentration": "ic"}
        if irf is not None:
            dm["irf"] = "irf1"
        if full["inverted"]:
            dm["spectral_axis_inverted"] = True
        if full["axis_scale"] != 1:
            dm["spectral_axis_scale"] = full["axis_scale"]
        spec["dataset"]["dfull"] = dm
    if dg:
        spec["dataset_groups"] = dg

    # seeded data -----------------------------------------------------------------------------------
    data = {}
    all_ds = list(zip(labels, [d["nt"] for d in case["datasets"]])) + ([("dfull", 10)] if full is not None else [])
    for lbl, nt in all_ds:
        t_axis = np.round(np.linspace(-0.5, 4.0 + rng.uniform(), nt), 6)
        conc = np.exp(-np.outer(np.clip(t_axis, 0, None), np.array(rates) + 0.05)) * (t_axis[:, None] >= 0)
        spectra = rng.uniform(0.2, 1.0, (n, n_g))
        y = conc @ spectra + 0.02 * rng.standard_normal((nt, n_g)) + 0.05
        data[lbl] = xr.DataArray(y, coords=[("time", t_axis), ("spectral", g_axis.copy())]).to_dataset(name="data")

    has_tuple_interval = any(
        (c["interval"] or {}).get("kind") == "tuple" for c in case["constraints"] + case["relations"]
    )
    has_any_interval = any(c["interval"] is not None for c in case["constraints"] + case["relations"]) or bool(case["penalties"])
    info = {
        "tuple_interval": has_tuple_interval,
        "any_interval": has_any_interval,
        "tuple_keys": True,
        "groups": len(dg),
        "full": full is not None,
    }
    return spec, P.dict_list(), data, info


def make_model(spec):
    """Model instance from a python spec (megacomplex types taken from the plugin registry)."""
    from glotaran.model import Model
    from glotaran.plugin_system.megacomplex_registration import get_megacomplex

    types = []
    for m in spec["megacomplex"].values():
        t = get_megacomplex(m["type"])
        if t not in types:
            types.append(t)
    return Model.create_class_from_megacomplexes(types)(**copy.deepcopy(spec))


def make_parameters(dict_list):
    from glotaran.parameter import Parameters

    return Parameters.from_parameter_dict_list(copy.deepcopy(dict_list))
