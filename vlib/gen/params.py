"""Parameter-set generator shared by C11 and C12.

A *parameter set case* is JSON data::

    {"construct": "list" | "dict" | "records",
     "params": [ {"label": "k.1", "value": 0.5 | None, "min": -inf, "max": inf,
                  "nn": False, "vary": True, "expr": None | <tree>}, ... ]}

``params`` is the order in which the parameters are handed to the constructor.  ``build`` creates
the glotaran ``Parameters``; ``declaration_order`` is the oracle's own account of the resulting
declaration order (for the nested-dict constructor: depth-first traversal of the nested mapping in
insertion order).  Expressions are *trees* (``vlib.oracle.c12expr``): the oracle evaluates the tree,
glotaran gets the rendered ``$label`` string.
"""

from __future__ import annotations

import math

from hypothesis import strategies as st

from vlib.oracle import c12expr as ex

INF = math.inf

# label material.  Groups are mutually tree-consistent (no group is a proper prefix-path of another),
# "" means a flat label (only possible with the list / records constructors).
GROUPS = ["k", "rates", "irf", "b.1", "b.x", "c.d", "s_1", "10"]
GROUPS_TEXT = ["k", "rates", "irf", "b.1", "b.x", "c.d", "s_1"]  # no purely numeric group (csv re-typing is C16's D16)
SHORTS = ["1", "2", "3", "10", "11", "a", "w", "k1", "x_y", "center"]
FLAT = ["1", "2", "10", "a", "w", "kk", "x_y", "b1", "amp"]


def all_pool_labels():
    out = list(FLAT)
    for g in GROUPS:
        out += [f"{g}.{s}" for s in SHORTS]
    return out


@st.composite
def labels(draw, n, construct, groups=None):
    """n distinct labels compatible with the constructor."""
    groups = GROUPS if groups is None else groups
    nested = st.tuples(st.sampled_from(groups), st.sampled_from(SHORTS)).map(lambda gs: f"{gs[0]}.{gs[1]}")
    if construct == "dict":
        one = nested
    else:
        one = st.one_of(st.sampled_from(FLAT), nested, nested)
    out = draw(st.lists(one, min_size=n, max_size=n, unique=True))
    # a flat label must not collide with the head of a nested one ("10" vs "10.1" is fine for list/records
    # constructors - labels are plain dict keys there)
    return out


DEFAULT_KEYS = {
    "vary": lambda p: bool(p.get("vary", True)),
    "non-negative": lambda p: bool(p.get("nn")),
    "min": lambda p: p.get("min", -INF),
    "max": lambda p: p.get("max", INF),
}


def nest(params: list, defaults: dict | None = None) -> dict:
    """Nested mapping for Parameters.from_dict (insertion order = order of first appearance).

    ``defaults = {"keys": [...], "pos": 0 | 1 | 2}``: every group list additionally carries a default-options mapping (the
    options of its first member for ``keys``) as first / middle / last element; members that differ override it explicitly, so
    the declared parameter set is the same with and without it."""
    root: dict = {}
    leaves: dict = {}
    for p in params:
        *path, short = p["label"].split(".")
        node = root
        for part in path[:-1]:
            node = node.setdefault(part, {})
        lst = node.setdefault(path[-1], [])
        members = leaves.setdefault(id(lst), (lst, []))[1]
        members.append((p, short))
        lst.append(_as_list_item(p, short))
    if defaults and defaults.get("keys"):
        for lst, members in leaves.values():
            group_default = {k: DEFAULT_KEYS[k](members[0][0]) for k in defaults["keys"]}
            lst.clear()
            for p, short in members:
                item = [short]
                if p.get("value") is not None:
                    item.append(float(p["value"]))
                o = _options(p)
                for k, v in group_default.items():
                    mine = DEFAULT_KEYS[k](p)
                    if mine == v:
                        o.pop(k, None)
                    else:
                        o[k] = mine
                if o:
                    item.append(o)
                lst.append(item)
            pos = {0: 0, 1: len(lst) // 2, 2: len(lst)}[defaults.get("pos", 2)]
            lst.insert(pos, dict(group_default))
    return root


def traverse(nested, prefix="") -> list:
    """Labels of a nested mapping in depth-first insertion order (the oracle's declaration order)."""
    out = []
    for key, val in nested.items():
        path = f"{prefix}{key}"
        if isinstance(val, dict):
            out += traverse(val, path + ".")
        else:
            for item in val:
                if not isinstance(item, dict):
                    out.append(f"{path}.{item[0]}")
    return out


def _options(p) -> dict:
    o = {}
    if p.get("expr") is not None:
        o["expr"] = ex.render(p["expr"])
    if p.get("min", -INF) != -INF:
        o["min"] = p["min"]
    if p.get("max", INF) != INF:
        o["max"] = p["max"]
    if p.get("nn"):
        o["non-negative"] = True
    if not p.get("vary", True):
        o["vary"] = False
    return o


def _as_list_item(p, label):
    item = [label]
    if p.get("value") is not None:
        item.append(float(p["value"]))
    o = _options(p)
    if o:
        item.append(o)
    return item


def declaration_order(case) -> list:
    if case.get("construct", "list") == "dict":
        return traverse(nest(case["params"], case.get("group_defaults")))
    return [p["label"] for p in case["params"]]


def spec(case):
    """The python object handed to the constructor (also what a yml file would contain)."""
    kind = case.get("construct", "list")
    if kind == "dict":
        return nest(case["params"], case.get("group_defaults"))
    if kind == "list":
        return [_as_list_item(p, p["label"]) for p in case["params"]]
    raise ValueError(kind)


def build(case):
    """glotaran Parameters for the case."""
    import numpy as np

    from glotaran.parameter import Parameters

    kind = case.get("construct", "list")
    if kind == "dict":
        return Parameters.from_dict(nest(case["params"], case.get("group_defaults")))
    if kind == "list":
        return Parameters.from_list([_as_list_item(p, p["label"]) for p in case["params"]])
    if kind == "records":
        recs = []
        for p in case["params"]:
            recs.append(
                {
                    "label": p["label"],
                    "value": float(p["value"]) if p.get("value") is not None else np.nan,
                    "minimum": p.get("min", -INF),
                    "maximum": p.get("max", INF),
                    "non_negative": bool(p.get("nn")),
                    "vary": bool(p.get("vary", True)),
                    "expression": ex.render(p["expr"]) if p.get("expr") is not None else None,
                }
            )
        return Parameters.from_parameter_dict_list(recs)
    raise ValueError(kind)


def by_label(case) -> dict:
    return {p["label"]: p for p in case["params"]}


def kind_of(p) -> str:
    if p.get("expr") is not None:
        return "expression"
    if not p.get("vary", True):
        return "fixed"
    if p.get("nn"):
        return "non_negative"
    lo, hi = p.get("min", -INF) != -INF, p.get("max", INF) != INF
    if lo and hi:
        return "bounded"
    if lo or hi:
        return "one_sided"
    return "free"


def is_free(p) -> bool:
    return p.get("expr") is None and p.get("vary", True)


def exprs_of(case) -> dict:
    return {p["label"]: p["expr"] for p in case["params"] if p.get("expr") is not None}


# ------------------------------------------------------------------------------------------
# values and bounds


def magnitudes(lo=-12.0, hi=12.0):
    """Positive values 10**U(lo, hi), with a bias to round numbers."""
    return st.one_of(
        st.floats(lo, hi).map(lambda e: 10.0**e),
        st.integers(int(lo), int(hi)).map(lambda e: 10.0**e),
        st.sampled_from([1.0, 2.0, 0.5, 3.0, 0.1]),
    )


@st.composite
def plain_decl(draw, label, kind):
    """One non-expression parameter of the given kind (free / bounded / one_sided / non_negative / fixed)."""
    p = {"label": label, "value": None, "min": -INF, "max": INF, "nn": False, "vary": True, "expr": None}
    if kind == "fixed":
        p["vary"] = False
        kind = draw(st.sampled_from(["free", "bounded", "non_negative", "free"]))
    if kind == "non_negative":
        p["nn"] = True
        v = draw(st.one_of(st.just(1.0), st.just(1.0), magnitudes()))
        p["value"] = v
        # min in {-inf} U [0, value)
        mk = draw(st.sampled_from(["ninf", "zero", "frac", "near", "ninf"]))
        if mk == "zero":
            p["min"] = 0.0
        elif mk == "frac":
            p["min"] = v * draw(st.floats(0.0, 0.999))
        elif mk == "near":
            p["min"] = v * (1 - draw(st.sampled_from([1e-3, 1e-6])))
        xk = draw(st.sampled_from(["inf", "inf", "at", "near", "far"]))
        if xk == "at":
            p["max"] = v
        elif xk == "near":
            p["max"] = v * (1 + draw(st.sampled_from([1e-3, 1e-6])))
        elif xk == "far":
            p["max"] = v * draw(st.floats(1.5, 1e6))
        if p["min"] != -INF and not p["min"] < p["value"]:
            p["min"] = 0.0
        return p
    sign = draw(st.sampled_from([1.0, 1.0, -1.0]))
    v = draw(st.one_of(st.just(0.0), magnitudes().map(lambda m: sign * m), magnitudes().map(lambda m: sign * m)))
    p["value"] = v
    scale = abs(v) if v != 0 else 1.0
    if kind == "free":
        return p
    where = draw(st.sampled_from(["at_min", "at_max", "near_min", "near_max", "inside", "inside"]))
    width = scale * draw(st.sampled_from([1e-6, 1e-3, 0.5, 1.0, 10.0, 1e6]))
    tiny = scale * 1e-9
    if where == "at_min":
        lo, hi = v, v + width
    elif where == "at_max":
        lo, hi = v - width, v
    elif where == "near_min":
        lo, hi = v - tiny, v + width
    elif where == "near_max":
        lo, hi = v - width, v + tiny
    else:
        f = draw(st.floats(0.05, 0.95))
        lo, hi = v - f * width, v + (1 - f) * width
    if kind == "bounded":
        p["min"], p["max"] = lo, hi
    else:  # one sided
        if where in ("at_min", "near_min") or (where == "inside" and draw(st.booleans())):
            p["min"] = lo
        else:
            p["max"] = hi
    if not (p["min"] <= v <= p["max"] and p["min"] < p["max"]):  # rounding at extreme widths: fall back
        p["min"], p["max"] = -INF, INF
    return p


@st.composite
def trees(draw, ref_labels, max_leaves=4, funcs=ex.FUNCS, consts=None, need_ref=True):
    """Random expression tree over the given labels."""
    consts = consts or st.sampled_from([0.5, 1.0, 1.5, 2.0, 3.0, -1.0, -0.25, 0.1, 10.0])
    leaves = []
    n = draw(st.integers(1, max_leaves))
    for i in range(n):
        if ref_labels and (draw(st.integers(0, 3)) > 0 or (need_ref and i == 0)):
            leaves.append(["ref", draw(st.sampled_from(ref_labels))])
        else:
            leaves.append(["c", draw(consts)])
    if not any(leaf[0] == "ref" for leaf in leaves) and len(leaves) == 1:
        # never a bare number: a purely numeric expression column is C16's D17
        leaves.append(["c", draw(consts)])

    def wrap(t):
        r = draw(st.integers(0, 9))
        if r < 6 or not funcs:
            return t
        if r == 6:
            return ["neg", t]
        return [draw(st.sampled_from(list(funcs))), t]

    nodes = [wrap(leaf) for leaf in leaves]
    while len(nodes) > 1:
        i = draw(st.integers(0, len(nodes) - 2))
        op = draw(st.sampled_from(["+", "-", "*", "/", "+", "*"]))
        nodes[i : i + 2] = [wrap([op, nodes[i], nodes[i + 1]])]
    return nodes[0]


KINDS = ["free", "bounded", "one_sided", "non_negative", "fixed", "expression"]


@st.composite
def parameter_sets(draw, min_size=1, max_size=7, constructs=("list", "dict", "records")):
    """The C11 space: any mix of kinds; expressions reference non-expression parameters only
    (evaluation order among expression parameters is C12's subject)."""
    construct = draw(st.sampled_from(list(constructs)))
    n = draw(st.integers(min_size, max_size))
    labs = draw(labels(n, construct))
    kinds = [draw(st.sampled_from(KINDS + ["expression", "non_negative"])) for _ in range(n)]
    if all(k == "expression" for k in kinds):
        kinds[draw(st.integers(0, n - 1))] = draw(st.sampled_from(KINDS[:5]))
    plain_labels = [lab for lab, k in zip(labs, kinds) if k != "expression"]
    params = []
    for lab, k in zip(labs, kinds):
        if k == "expression":
            t = draw(trees(plain_labels, max_leaves=3))
            p = {"label": lab, "value": draw(st.sampled_from([None, None, 0.0, 7.0])), "min": -INF, "max": INF,
                 "nn": False, "vary": draw(st.sampled_from([True, True, False])), "expr": t}
        else:
            p = draw(plain_decl(lab, k))
        params.append(p)
    if draw(st.integers(0, 5)) == 0:
        # bounds written as plain integers (as `min: 10` in a yml file) on EVERY free parameter
        for p in params:
            if p.get("expr") is not None or not p.get("vary", True):
                continue
            v = draw(st.floats(2.0, 500.0))
            p["value"] = v
            p["min"] = int(draw(st.integers(1, max(1, int(math.floor(v)) - 1)))) if math.floor(v) > 1 else 1
            p["max"] = int(math.ceil(v)) + int(draw(st.integers(1, 50)))
            if not p["min"] < v:
                p["min"] = 1
    case = {"construct": construct, "params": params}
    if construct == "dict" and draw(st.booleans()):
        # default options of a group, as first / middle / last element of the group list
        case["group_defaults"] = {"keys": draw(st.lists(st.sampled_from(sorted(DEFAULT_KEYS)), min_size=1, max_size=4, unique=True)),
                                  "pos": draw(st.integers(0, 2))}
    return case
