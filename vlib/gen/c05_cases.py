"""C05 generators: decay megacomplex + Gaussian IRF cases as plain JSON data.

A case:
    {"mc":  {"type": "decay-parallel" | "decay-sequential" | "decay", "rates": [k, ...]},
     "irf": {"type": "gaussian" | "multi-gaussian" | "spectral-gaussian" | "spectral-multi-gaussian",
             "center": [..], "width": [..], "scale": None | [..], "normalize": bool,
             "shift": None | [one per global index],
             "dispersion_center": float | None, "cdc": [..], "wdc": [..], "wavenumber": bool},
     "global_axis": [..], "times": [..], ("data_seed": int)}

Stated domain (properties.jsonl C05): rates 1e-4..1e3, widths 1e-3..10, times within [-100, +1000]
widths of every (effective) centre, 1-3 Gaussians with the documented broadcast patterns
(1 centre/1 width, 1 centre/n widths, n centres/1 width, n/n), scales None or one per Gaussian
(positive), shifts per index, dispersion polynomials of order 0-3, global axes arbitrary
(non-zero in reciprocal-wavenumber mode).  Backsweep off.  Construction over rejection.
"""

from __future__ import annotations

import math

from hypothesis import strategies as st

SQRT2 = math.sqrt(2.0)
U_LO, U_HI = -100.0, 1000.0


def broadcast(irf):
    c, w = list(irf["center"]), list(irf["width"])
    n = max(len(c), len(w))
    if len(c) == 1:
        c = c * n
    if len(w) == 1:
        w = w * n
    s = list(irf["scale"]) if irf.get("scale") is not None else [1.0] * n
    return c, w, s


def dist(irf, lam):
    lc = irf["dispersion_center"]
    return (1e3 / lam - 1e3 / lc) if irf.get("wavenumber") else (lam - lc) / 100.0


def effective_float(irf, axis):
    """Approximate effective centres/widths per index (float; only used to place time points)."""
    c, w, _ = broadcast(irf)
    out_c, out_w = [], []
    for i, lam in enumerate(axis):
        ci, wi = list(c), list(w)
        if irf.get("dispersion_center") is not None:
            d = dist(irf, lam)
            ci = [x + sum(cf * d ** (j + 1) for j, cf in enumerate(irf.get("cdc") or [])) for x in ci]
            wi = [x + sum(cf * d ** (j + 1) for j, cf in enumerate(irf.get("wdc") or [])) for x in wi]
        if irf.get("shift") is not None:
            ci = [x - irf["shift"][i] for x in ci]
        out_c.append(ci)
        out_w.append(wi)
    return out_c, out_w


def _log(lo, hi):
    return st.floats(math.log10(lo), math.log10(hi)).map(lambda e: 10.0**e)


@st.composite
def rates_st(draw):
    n = draw(st.integers(1, 3))
    ks = [draw(_log(1e-4, 1e3))]
    for _ in range(n - 1):
        ks.append(ks[-1] * 10.0 ** draw(st.floats(0.15, 3.0)))
    if max(ks) > 1e3:
        f = 1e3 / max(ks)
        ks = [k * f for k in ks]
    perm = draw(st.permutations(list(range(n))))
    return [ks[p] for p in perm]


@st.composite
def mc_st(draw):
    ks = draw(rates_st())
    typ = draw(st.sampled_from(["decay-parallel", "decay-parallel", "decay-sequential", "decay"]))
    if typ == "decay" and len(ks) > 2:
        ks = ks[:2]
    return {"type": typ, "rates": ks}


@st.composite
def gaussians_st(draw, wlo=1e-3, whi=10.0, allow_scalar=True):
    n = draw(st.sampled_from([1, 1, 2, 3]))
    w0 = draw(_log(wlo, whi))
    mu0 = draw(
        st.one_of(
            st.just(0.0),
            st.floats(-1, 1),
            st.floats(-100, 100),
            st.floats(-1e4, 1e4),
        )
    )
    if n == 1:
        pat = "1/1"
    else:
        pat = draw(st.sampled_from(["1/n", "n/1", "n/n"]))
    centers, widths = [mu0], [w0]
    if pat in ("n/1", "n/n"):
        centers += [mu0 + w0 * draw(st.floats(-5, 5)) for _ in range(n - 1)]
    if pat in ("1/n", "n/n"):
        widths += [min(whi, max(wlo, w0 * 10.0 ** draw(st.floats(-1.3, 1.3)))) for _ in range(n - 1)]
    scale = None
    if draw(st.booleans()):
        scale = [draw(_log(1e-2, 1e2)) for _ in range(n)]
    return {"center": centers, "width": widths, "scale": scale, "n": n, "pattern": pat}


AXIS_FAMILIES = ["wavelength", "pixel", "signed", "tiny", "large"]


@st.composite
def global_axis_st(draw, nonzero, nmax=4):
    n = min(nmax, draw(st.sampled_from([1, 2, 2, 3, 3, 4, 4])))
    fam = draw(st.sampled_from(AXIS_FAMILIES))
    if fam == "wavelength":
        el = st.one_of(st.floats(200.0, 1000.0), st.integers(200, 1000).map(float))
    elif fam == "pixel":
        el = st.integers(1 if nonzero else 0, 12).map(float)
    elif fam == "signed":
        el = st.floats(-50.0, 50.0)
    elif fam == "tiny":
        el = _log(1e-3, 1.0)
    else:
        el = _log(1e3, 1e6)
    if nonzero:
        el = el.filter(lambda v: abs(v) >= 1e-3)
    ax = draw(st.lists(el, min_size=n, max_size=n, unique=True))
    return ax, fam


TIME_KINDS = ["uniform", "near", "logpos", "logneg", "switch", "switch"]


@st.composite
def time_specs_st(draw, n_idx, n_g, n_r, lo=6, hi=22):
    n = draw(st.integers(lo, hi))
    specs = []
    for _ in range(n):
        kind = draw(st.sampled_from(TIME_KINDS))
        i = draw(st.integers(0, n_idx - 1))
        g = draw(st.integers(0, n_g - 1))
        r = draw(st.integers(0, n_r - 1))
        if kind == "uniform":
            v = draw(st.floats(U_LO, U_HI))
        elif kind == "near":
            v = draw(st.floats(-6, 6))
        elif kind == "logpos":
            v = 10.0 ** draw(st.floats(-3, 3))
        elif kind == "logneg":
            v = -(10.0 ** draw(st.floats(-3, 2)))
        else:
            v = draw(st.sampled_from([-1.0, 1.0])) * 10.0 ** draw(st.floats(-9, 0))
        specs.append((kind, i, g, r, v))
    return specs


def place_times(specs, rates, eff_c, eff_w):
    """t = mu + sigma*u ; 'switch' points sit at u = k sigma - sqrt2 + delta (the kernel's branch switch)."""
    ts = set()
    for kind, i, g, r, v in specs:
        mu, sg = eff_c[i][g], eff_w[i][g]
        u = v
        if kind == "switch":
            us = rates[r] * sg - SQRT2
            if not (U_LO + 1 <= us <= U_HI - 1):
                us = -SQRT2 + 0.0  # switch outside the window for this k*sigma: probe near the k->0 switch instead
            u = us + v
        ts.add(mu + sg * u)
    ok = []
    for t in sorted(ts):
        if all(U_LO <= (t - eff_c[i][g]) / eff_w[i][g] <= U_HI for i in range(len(eff_c)) for g in range(len(eff_c[i]))):
            ok.append(t)
    if not ok:
        ok = [eff_c[0][0]]
    return ok


@st.composite
def kernel_cases(draw):
    """Index-independent Gaussian / multi-Gaussian IRF."""
    mc = draw(mc_st())
    gs = draw(gaussians_st())
    irf = {
        "type": "gaussian" if gs["n"] == 1 and draw(st.booleans()) else "multi-gaussian",
        "center": gs["center"], "width": gs["width"], "scale": gs["scale"],
        "normalize": draw(st.booleans()), "shift": None, "dispersion_center": None, "cdc": [], "wdc": [], "wavenumber": False,
    }
    ax, fam = draw(global_axis_st(False, 3))
    eff_c, eff_w = effective_float(irf, ax[:1])
    specs = draw(time_specs_st(1, gs["n"], len(mc["rates"])))
    times = place_times(specs, mc["rates"], eff_c, eff_w)
    return {"mc": mc, "irf": irf, "global_axis": ax, "times": times, "pattern": gs["pattern"], "axis_family": fam}


@st.composite
def index_cases(draw, nmax=4, tlo=6, thi=22):
    """Shifted and/or dispersed IRF."""
    mc = draw(mc_st())
    feature = draw(st.sampled_from(["shift", "dispersion", "dispersion", "shift+dispersion"]))
    spectral = "dispersion" in feature
    n_w = draw(st.sampled_from([0, 0, 1, 2, 3])) if spectral else 0
    gs = draw(gaussians_st(*((2e-3, 7.0) if n_w else (1e-3, 10.0))))
    wavenumber = spectral and draw(st.booleans())
    ax, fam = draw(global_axis_st(wavenumber, nmax))
    wmin = min(gs["width"])
    irf = {
        "center": gs["center"], "width": gs["width"], "scale": gs["scale"], "normalize": draw(st.booleans()),
        "shift": None, "dispersion_center": None, "cdc": [], "wdc": [], "wavenumber": wavenumber,
    }
    if "shift" in feature:
        irf["shift"] = [
            draw(st.one_of(st.just(0.0), st.floats(-10, 10).map(lambda x: x * wmin), st.floats(-1, 1).map(lambda x: x * wmin)))
            for _ in ax
        ]
    if spectral:
        irf["type"] = "spectral-gaussian" if gs["n"] == 1 and draw(st.booleans()) else "spectral-multi-gaussian"
        lo, hi = min(ax), max(ax)
        span = (hi - lo) or max(abs(hi), 1.0)
        lc = draw(
            st.one_of(
                st.sampled_from(ax),
                st.floats(0, 1).map(lambda f: lo + f * (hi - lo)),
                st.floats(-1, 2).map(lambda f: lo + f * span),
            )
        )
        if wavenumber and abs(lc) < 1e-3:
            lc = ax[0]
        irf["dispersion_center"] = lc
        D = max(abs(dist(irf, lam)) for lam in ax)
        if D < 1e-12:  # (nearly) all indices at the dispersion centre: coefficients of order one
            D = 1.0
        n_c = draw(st.sampled_from([0, 1, 2, 3, 1, 2, 3]))
        span_c = wmin * 10.0 ** draw(st.floats(-1.5, 1))
        irf["cdc"] = [draw(st.floats(-1, 1)) * span_c / D ** (j + 1) for j in range(n_c)]
        irf["wdc"] = [draw(st.floats(-1, 1)) * 0.1 * wmin / D ** (j + 1) for j in range(n_w)]
    else:
        irf["type"] = "gaussian" if gs["n"] == 1 and draw(st.booleans()) else "multi-gaussian"
    eff_c, eff_w = effective_float(irf, ax)
    specs = draw(time_specs_st(len(ax), gs["n"], len(mc["rates"]), tlo, thi))
    times = place_times(specs, mc["rates"], eff_c, eff_w)
    return {"mc": mc, "irf": irf, "global_axis": ax, "times": times, "pattern": gs["pattern"], "axis_family": fam, "feature": feature}


@st.composite
def result_cases(draw):
    """Cases for the optimize() path: plain or index-dependent IRF, increasing global axis, >= 3 time points."""
    if draw(st.integers(0, 3)) == 0:
        case = draw(kernel_cases())
        case["feature"] = "plain"
    else:
        case = draw(index_cases(3, 8, 14))
    order = sorted(range(len(case["global_axis"])), key=lambda i: case["global_axis"][i])
    case["global_axis"] = [case["global_axis"][i] for i in order]
    if case["irf"]["shift"] is not None:
        case["irf"]["shift"] = [case["irf"]["shift"][i] for i in order]
    if len(case["times"]) < 6:  # a fit needs a few points: pad around the first effective centre
        eff_c, eff_w = effective_float(case["irf"], case["global_axis"])
        extra = [eff_c[0][0] + eff_w[0][0] * u for u in (-2.0, -1.0, 0.0, 1.0, 2.0, 4.0, 8.0, 16.0)]
        extra = [
            t for t in extra
            if all(U_LO <= (t - eff_c[i][g]) / eff_w[i][g] <= U_HI for i in range(len(eff_c)) for g in range(len(eff_c[i])))
        ]
        case["times"] = sorted(set(case["times"]) | set(extra))
    case["data_seed"] = draw(st.integers(0, 2**31 - 1))
    return case
