"""CLI:  python -m vlib.runner <ID> quick|thorough [--sub a,b] [--scale f]
        python -m vlib.runner <ID> --replay <file>

Exit codes: 0 held on everything explored; 1 + ``VIOLATION property=<id> replay=<path>`` for every
violation bucket not listed in known_findings.json; 2 harness error (never a verdict).
"""

from __future__ import annotations

import importlib
import json
import os
import sys
import time
from collections import Counter
from pathlib import Path

ROOT = Path(__file__).resolve().parent.parent


def _bootstrap():
    """Pin the environment, make /repo's working tree and the offline deps importable."""
    if os.environ.get("PYTHONHASHSEED") != "0":
        os.environ["PYTHONHASHSEED"] = "0"
        os.environ.setdefault("GLOTARAN_PYGLOTARAN_VERIF", "1")
        os.execv(sys.executable, [sys.executable, "-m", "vlib.runner", *sys.argv[1:]])
    repo = os.environ.get("VERIF_REPO", "/repo")
    if repo not in sys.path:
        sys.path.insert(0, repo)
    deps = ROOT / ".deps"
    if not (deps / "mpmath").exists():
        import subprocess

        subprocess.run(
            [sys.executable, "-m", "pip", "install", "-q", "--no-index", "--no-deps", "--find-links",
             "/opt/veriftools/wheels", "--target", str(deps), "mpmath", "sortedcontainers", "hypothesis", "atheris"],
            check=False, stdout=subprocess.DEVNULL, stderr=subprocess.DEVNULL,
        )
    if str(deps) not in sys.path:
        sys.path.append(str(deps))  # after /venv's site-packages: never shadows numpy/scipy/attrs
    pp = os.environ.get("PYTHONPATH", "")
    parts = [p for p in pp.split(":") if p]
    for p in (str(ROOT), repo):
        if p not in parts:
            parts.insert(0, p)
    if str(deps) not in parts:
        parts.append(str(deps))
    os.environ["PYTHONPATH"] = ":".join(parts)
    os.environ.setdefault("NUMBA_NUM_THREADS", "1")
    for k in ("OMP_NUM_THREADS", "OPENBLAS_NUM_THREADS", "MKL_NUM_THREADS"):
        os.environ.setdefault(k, "1")


def _strict(o):
    """Evidence must be strictly valid JSON: non-finite floats are written as strings."""
    import math

    if isinstance(o, float) and not math.isfinite(o):
        return "NaN" if o != o else ("Infinity" if o > 0 else "-Infinity")
    if isinstance(o, dict):
        return {str(k): _strict(v) for k, v in o.items()}
    if isinstance(o, (list, tuple)):
        return [_strict(v) for v in o]
    return o


def load_property(pid: str):
    mod = importlib.import_module(f"vlib.props.{pid.lower()}")
    return mod.PROPERTY


def assert_repo():
    import glotaran

    repo = os.path.realpath(os.environ.get("VERIF_REPO", "/repo"))
    where = os.path.realpath(glotaran.__file__)
    if not where.startswith(repo + "/"):
        print(f"HARNESS-ERROR glotaran imported from {where}, expected under {repo}")
        sys.exit(2)


def load_known(pid: str):
    f = ROOT / "known_findings.json"
    if not f.exists():
        return []
    return [e for e in json.loads(f.read_text())["findings"] if e["property"] == pid]


def matches(entry: dict, failure: dict) -> bool:
    from vlib.core import matches_known

    return matches_known(entry, failure)


def run_replay(pid: str, path: str) -> int:
    prop = load_property(pid)
    rec = json.loads(Path(path).read_text())
    ok, msg = replay_record(prop, rec)
    if ok:
        print(f"REPLAY-OK property={pid} {path}")
        return 0
    print(f"replay failed: {msg[:600]}")
    print(f"VIOLATION property={pid} replay={path}")
    return 1


def replay_record(prop, rec) -> tuple[bool, str]:
    from vlib.core import Discard
    from vlib.core import Violation

    sub = prop.sub(rec["sub"])
    try:
        if sub.machine is not None:
            sub.replay_steps(rec["case"])
        else:
            sub.prop(rec["case"])
    except Violation as v:
        return False, f"{v.clause}: {v.message}"
    except Discard as d:
        return True, f"discarded: {d.reason}"
    return True, ""


def main(argv=None):
    argv = list(sys.argv[1:] if argv is None else argv)
    if len(argv) < 2:
        print(__doc__)
        return 2
    pid = argv[0].upper()
    assert_repo()
    if argv[1] == "--replay":
        return run_replay(pid, argv[2])
    tier = argv[1]
    if tier not in ("quick", "thorough"):
        print(__doc__)
        return 2
    only = None
    scale = float(os.environ.get("VERIF_SCALE", "1"))
    i = 2
    while i < len(argv):
        if argv[i] == "--sub":
            only = set(argv[i + 1].split(","))
            i += 2
        elif argv[i] == "--scale":
            scale = float(argv[i + 1])
            i += 2
        else:
            i += 1
    seed = int(os.environ.get("VERIF_SEED", "1"))
    return run_check(pid, tier, seed, only, scale)


def run_check(pid: str, tier: str, seed: int, only, scale: float) -> int:
    from concurrent.futures import ProcessPoolExecutor
    import multiprocessing as mp

    from vlib import core

    t0 = time.time()
    prop = load_property(pid)
    known = load_known(pid)
    out_lines = []
    harness_errors = []

    # ---- oracle self checks
    if prop.selfcheck is not None:
        try:
            prop.selfcheck()
        except Exception:  # noqa: BLE001
            import traceback

            print("HARNESS-ERROR oracle self-check failed\n" + traceback.format_exc())
            return 2

    # ---- replay tier: committed witnesses
    violations = []  # dict(sub, clause, message, case, replay)
    known_hits = Counter()
    wdir = ROOT / "witness" / pid
    n_witness = 0
    for entry in known:
        for w in entry.get("witness", []):
            wp = ROOT / w
            rec = json.loads(wp.read_text())
            ok, msg = replay_record(prop, rec)
            n_witness += 1
            if entry["status"] == "fixed":
                if not ok:
                    violations.append({"sub": rec["sub"], "clause": rec.get("clause", "?"), "message": msg, "case": rec["case"], "replay": str(wp)})
            elif entry["status"] == "known":
                if not ok:
                    known_hits[entry["id"]] += 1
    # other committed regression replays (not tied to a finding)
    if wdir.exists():
        listed = {str(ROOT / w) for e in known for w in e.get("witness", [])}
        for wp in sorted(wdir.glob("*.json")):
            if str(wp) in listed:
                continue
            rec = json.loads(wp.read_text())
            ok, msg = replay_record(prop, rec)
            n_witness += 1
            if not ok:
                violations.append({"sub": rec["sub"], "clause": rec.get("clause", "?"), "message": msg, "case": rec["case"], "replay": str(wp)})

    # ---- generated search
    total = core.ShardResult()
    per_sub = {}
    tasks = []
    custom = []
    for sub in prop.subs:
        if only and sub.name not in only:
            continue
        nsh = sub.shards.get(tier, 16)
        if sub.custom is not None:
            custom.append(sub)
        elif sub.enumerate is not None:
            ncases = len(sub.enumerate(tier))
            nchunks = min(max(1, ncases // 200), 64)
            step = -(-ncases // nchunks)
            for c in range(nchunks):
                tasks.append({"property": pid, "sub": sub.name, "kind": "enum", "tier": tier, "range": (c * step, min(ncases, (c + 1) * step))})
        elif sub.machine is not None:
            n = max(nsh, int(sub.budget[tier] * scale))
            for sh in range(nsh):
                tasks.append({"property": pid, "sub": sub.name, "kind": "machine", "tier": tier, "n": -(-n // nsh), "steps": sub.steps[tier], "seed": core.derive_seed(seed, pid, sub.name, sh), "shrink": True})
        else:
            n = max(nsh, int(sub.budget[tier] * scale))
            for sh in range(nsh):
                tasks.append({"property": pid, "sub": sub.name, "kind": "hyp", "tier": tier, "n": -(-n // nsh), "seed": core.derive_seed(seed, pid, sub.name, sh)})

    ctx = mp.get_context("spawn")
    results = []
    timed_out = []
    if tasks:
        # wall-clock guard: a task that does not come back (e.g. a LAPACK routine looping on a non-finite matrix) is
        # abandoned and reported as *inconclusive* in the evidence - never a verdict
        guard = float(os.environ.get("VERIF_WALL_GUARD", "900" if tier == "quick" else "14400"))
        ex = ProcessPoolExecutor(max_workers=min(16, len(tasks)), mp_context=ctx, initializer=core.worker_init)
        futs = [(t, ex.submit(core.worker_task, t)) for t in tasks]
        deadline = time.time() + guard
        for t, f in futs:
            try:
                results.append((t, f.result(timeout=max(1.0, deadline - time.time()))))
            except TimeoutError:
                timed_out.append(t)
            except Exception as e:  # noqa: BLE001
                r = core.ShardResult()
                r.errors.append({"sub": t["sub"], "traceback": f"worker died: {e!r}", "case": None})
                results.append((t, r))
        if timed_out:
            for p_ in list(getattr(ex, "_processes", {}).values()):
                try:
                    p_.kill()
                except Exception:  # noqa: BLE001
                    pass
            ex.shutdown(wait=False, cancel_futures=True)
        else:
            ex.shutdown(wait=True)
    for sub in custom:
        try:
            r = sub.custom(tier, core.derive_seed(seed, pid, sub.name))
        except Exception:  # noqa: BLE001
            import traceback

            r = core.ShardResult()
            r.errors.append({"sub": sub.name, "traceback": traceback.format_exc()[-3000:], "case": None})
        results.append(({"sub": sub.name, "kind": "custom"}, r))

    # ---- classify failures
    new_buckets = {}  # (sub, clause) -> (failure, task)
    for t, r in results:
        ps = per_sub.setdefault(t["sub"], core.ShardResult())
        ps.merge(r)
        total.merge(r)
        harness_errors.extend(r.errors)
        for f in r.failures:
            hit = next((e for e in known if matches(e, f)), None)
            if hit is not None:
                known_hits[hit["id"]] += 1
                continue
            key = (f["sub"], f["clause"])
            cur = new_buckets.get(key)
            if cur is None or len(json.dumps(f["case"])) < len(json.dumps(cur[0]["case"])):
                new_buckets[key] = (f, t)

    # ---- shrink + write replay files
    rdir = ROOT / "replays" / pid
    shrink_tasks = []
    for key, (f, t) in new_buckets.items():
        if t.get("kind") == "hyp":
            shrink_tasks.append((key, {**t, "kind": "shrink", "clause": f["clause"], "known": known, "max_calls": 300 if tier == "quick" else 1500}))
    shrunk = {}
    if shrink_tasks:
        with ProcessPoolExecutor(max_workers=min(16, len(shrink_tasks)), mp_context=ctx, initializer=core.worker_init) as ex:
            futs = [(k, ex.submit(core.worker_task, t)) for k, t in shrink_tasks[:16]]
            for k, fu in futs:
                try:
                    s = fu.result().extra.get("shrunk")
                    if s and s["case"] is not None:
                        shrunk[k] = s
                except Exception:  # noqa: BLE001
                    pass
    for key, (f, t) in new_buckets.items():
        case, msg = f["case"], f["message"]
        if key in shrunk and len(json.dumps(shrunk[key]["case"])) <= len(json.dumps(case)):
            case, msg = shrunk[key]["case"], shrunk[key]["message"]
        rdir.mkdir(parents=True, exist_ok=True)
        safe = "".join(ch if ch.isalnum() or ch in "-_." else "_" for ch in f"{key[0]}-{key[1]}")[:120]
        path = rdir / f"{safe}.json"
        path.write_text(json.dumps({"property": pid, "sub": key[0], "clause": key[1], "message": msg, "case": case, "seed": seed, "tier": tier}, indent=1, default=core._json_default))
        violations.append({"sub": key[0], "clause": key[1], "message": msg, "case": case, "replay": str(path), "count": total.failure_counts.get(key[1], 1)})

    wall = time.time() - t0
    # ---- evidence
    ev = {
        "property_id": pid,
        "tier": tier,
        "seed": seed,
        "level": prop.level,
        "coverage": {
            "evaluations": int(total.evaluations),
            "distinct_nontrivial": int(len(total.nontrivial)),
            "rule": prop.rule,
            "samples": total.samples[:5] if total.samples else [],
            "exhaustive": False,
            "per_subcheck": {
                name: {
                    "evaluations": int(r.evaluations),
                    "distinct_nontrivial": int(len(r.nontrivial)),
                    "discarded": dict(r.discards),
                    "tags": dict(sorted(r.tags.items())),
                    "exhaustive_over_stated_subdomain": bool(prop.sub(name).exhaustive),
                    "doc": prop.sub(name).doc,
                    "failures_by_clause": dict(r.failure_counts),
                    "worker_seconds": round(r.wall, 2),
                    **({"extra": core.to_jsonable(r.extra)} if r.extra else {}),
                }
                for name, r in per_sub.items()
            },
            "witness_replays": n_witness,
            "inconclusive_tasks_abandoned_by_wall_guard": [f"{t['sub']}#{t.get('seed', t.get('range'))}" for t in timed_out],
            "known_findings_reproduced": dict(known_hits),
            "scale": scale,
        },
        "assumptions": prop.assumptions,
        "wall_s": round(wall, 2),
        "violations": len(violations),
    }
    # runs against a scratch copy (mutants, seeded changes) or of a single sub-check never overwrite the evidence of /repo
    evdir = ROOT / "evidence" if (os.environ.get("VERIF_REPO", "/repo") == "/repo" and not only) else ROOT / "evidence" / "scratch"
    evdir.mkdir(parents=True, exist_ok=True)
    (evdir / f"{pid}.json").write_text(json.dumps(_strict(core.to_jsonable(ev)), indent=1, allow_nan=False))

    # ---- report
    for e in known:
        if e["status"] == "known" and known_hits.get(e["id"]):
            print(f"KNOWN-FINDING: property={pid} {e['id']} {e['what']} (reproduced {known_hits[e['id']]}x this run)")
        elif e["status"] == "known":
            print(f"note: known finding {e['id']} did not reproduce in this run")
    print(f"{pid} {tier} seed={seed}: {total.evaluations} cases, {len(total.nontrivial)} distinct non-trivial, "
          f"{sum(total.discards.values())} discarded, {n_witness} witness replays, {wall:.1f}s")
    for name, r in per_sub.items():
        print(f"  {name}: {r.evaluations} cases, {len(r.nontrivial)} non-trivial, discards={dict(r.discards)} fails={dict(r.failure_counts)}")
    if timed_out:
        print(f"note: {len(timed_out)} task(s) abandoned by the wall-clock guard (inconclusive, not a verdict): {sorted({t['sub'] for t in timed_out})}")
    if harness_errors:
        print(f"HARNESS-ERROR {len(harness_errors)} harness errors; first:")
        print(harness_errors[0].get("traceback", "")[-2500:])
        if harness_errors[0].get("case") is not None:
            print("case:", json.dumps(harness_errors[0]["case"])[:1500])
    for v in violations:
        print(f"violation [{v['sub']}/{v['clause']}]: {str(v['message'])[:500]}")
        print(f"VIOLATION property={pid} replay={v['replay']}")
    if violations:
        return 1
    if harness_errors:
        return 2
    if total.evaluations == 0:
        print("HARNESS-ERROR no cases executed")
        return 2
    return 0


if __name__ == "__main__":
    _bootstrap()
    sys.exit(main())
