"""Harness megacomplexes (registered in the harness process only).

``verif-table``: column j is a closed-form function of the axis value, of parameter rates[j]
and - when index dependent - of the global axis *value*.  ``column()`` is the single source of
the formula; the reference objective calls it directly with plain floats, so the oracle never
goes through fill_item, scaling, label merging, reduction, weighting or alignment.
"""

from __future__ import annotations

import numpy as np

from glotaran.model import Megacomplex
from glotaran.model import Model
from glotaran.model import ParameterType
from glotaran.model import megacomplex
from glotaran.parameter import Parameters

SHAPES = ["exp", "cos", "rat", "gauss"]


def column(shape: str, r: float, t: np.ndarray, g: float | None) -> np.ndarray:
    t = np.asarray(t, dtype=float)
    gg = 0.0 if g is None else float(g)
    if shape == "exp":
        return np.exp(-r * np.abs(t)) * (1 + 0.05 * gg)
    if shape == "cos":
        return np.exp(-0.1 * r * np.abs(t)) * np.cos(r * t + 0.1 * gg)
    if shape == "rat":
        return 1.0 / (1.0 + r * t * t) + 0.02 * gg
    if shape == "gauss":
        return np.exp(-((t - 2.0 * r - 0.1 * gg) ** 2))
    raise ValueError(shape)


def table_matrix(shape, rates, axis, gvals=None):
    """(axis, n) or (len(gvals), axis, n) reference matrix from plain floats."""
    axis = np.asarray(axis, dtype=float)
    if gvals is None:
        return np.array([column(shape, r, axis, None) for r in rates]).T.reshape(axis.size, len(rates))
    return np.array([np.array([column(shape, r, axis, g) for r in rates]).T.reshape(axis.size, len(rates)) for g in gvals])


FAULT = {"plan": None, "count": 0, "log": []}


def reset_fault(plan=None):
    FAULT["plan"] = plan
    FAULT["count"] = 0
    FAULT["log"] = []


class InjectedFault(Exception):
    pass


@megacomplex()
class VerifTable(Megacomplex):
    type: str = "verif-table"
    dimension: str = "model"
    labels: list[str]
    rates: list[ParameterType]
    shape: str = "exp"
    index_dependent: bool = False
    fault: bool = False

    def calculate_matrix(self, dataset_model, global_axis, model_axis, **kwargs):
        rates = [float(r) for r in self.rates]
        if self.fault:
            _fault_hook(rates)
        if self.index_dependent:
            m = table_matrix(self.shape, rates, model_axis, np.asarray(global_axis))
        else:
            m = table_matrix(self.shape, rates, model_axis, None)
        if self.fault:
            m = _fault_matrix(m)
        return list(self.labels), np.array(m, dtype=float)

    def finalize_data(self, dataset_model, dataset, is_full_model=False, as_global=False):
        pass


@megacomplex()
class VerifTableG(Megacomplex):
    """Same as verif-table but living on the global dimension (for full models)."""

    type: str = "verif-table-g"
    dimension: str = "global"
    labels: list[str]
    rates: list[ParameterType]
    shape: str = "exp"

    def calculate_matrix(self, dataset_model, global_axis, model_axis, **kwargs):
        rates = [float(r) for r in self.rates]
        return list(self.labels), np.array(table_matrix(self.shape, rates, model_axis, None), dtype=float)

    def finalize_data(self, dataset_model, dataset, is_full_model=False, as_global=False):
        pass


def _fault_hook(rates):
    FAULT["count"] += 1
    k = FAULT["count"]
    plan = FAULT["plan"] or {}
    entry = {"k": k, "rates": list(rates), "ok": True}
    FAULT["log"].append(entry)
    kind = plan.get("kind")
    if kind == "raise_at" and k == plan["k"]:
        entry["ok"] = False
        exc = plan.get("exc_obj") or InjectedFault(f"injected fault at evaluation {k}")
        raise exc
    if kind == "raise_region" and any(r < plan["below"] for r in rates):
        entry["ok"] = False
        raise InjectedFault(f"injected fault: rate below {plan['below']}")


def _fault_matrix(m):
    plan = FAULT["plan"] or {}
    k = FAULT["count"]
    if plan.get("kind") in ("nan_at", "inf_at") and k == plan["k"]:
        FAULT["log"][-1]["ok"] = False
        m = np.array(m, dtype=float)
        m.flat[0] = np.nan if plan["kind"] == "nan_at" else np.inf
    return m


TableModel = Model.create_class_from_megacomplexes([VerifTable, VerifTableG])


def make_model(spec: dict, params):
    """Build (model, parameters) from a JSON spec and a parameter dict/list/Parameters."""
    import copy

    model = TableModel(**copy.deepcopy(spec))
    if isinstance(params, Parameters):
        p = params
    elif isinstance(params, dict):
        p = Parameters.from_dict(copy.deepcopy(params))
    else:
        p = Parameters.from_list(copy.deepcopy(params))
    return model, p
