"""Region predicates of known findings: predicate(case, message, params) -> bool."""

from __future__ import annotations

import numpy as np


def nnls_outside_reliable_region(case, message, params):
    """N1: scipy 1.14.1 nnls (normal equations, *absolute* stopping tolerance 10*max(m,n)*eps on A^T r)
    is only reliable for cond(A) < 1e4 (measured; after the scale fix D25 independent of scaling)."""
    from vlib.props import c01

    if "nnls.call" in message:
        # the exceptions scipy's nnls raises when its normal-equation solves break down
        if not ("Maximum number of iterations" in message or "zero-size array" in message or "LinAlgError" in message):
            return False
    return not c01.in_reliable_region(*c01.build(case), params)


def fault_reaches_create_result(case, message, params):
    """D15: Optimizer.create_result is unprotected - the fault hits one of its post-fit evaluations
    (k within the last 2*per_eval model evaluations) or the exception escapes from create_result itself
    (e.g. covariance SVD of a Jacobian that a non-finite fault left behind)."""
    if case.get("kind") == "raise_region":
        return "via create_result" in message
    if "k" in case:
        post_fit = case["k"] > case["n"] - 2 * case["per_eval"]
    else:  # random sub-check: k is computed at run time; the phase is part of the clause id
        post_fit = ".post_fit" in message.split(" | ")[0]
    if "InitialParameterError" in message and not post_fit:
        # r6c15B: create_result refusing a run whose first evaluation was fine is not D15 (the injected fault did not
        # reach create_result; create_result gave up although a good evaluation exists)
        return False
    return bool(post_fit or "via create_result" in message)
