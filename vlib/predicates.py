"""Region predicates of known findings: predicate(case, message, params) -> bool."""

from __future__ import annotations

import numpy as np


def nnls_outside_reliable_region(case, message, params):
    """N1: scipy 1.14.1 nnls (normal equations, *absolute* stopping tolerance 10*max(m,n)*eps on A^T r)
    is only reliable for cond(A) < 1e4 (measured; after the scale fix D25 independent of scaling)."""
    from vlib.props import c01

    if message.startswith(("RuntimeError", "ValueError")):
        if not ("Maximum number of iterations" in message or "zero-size array" in message):
            return False
    return not c01.in_reliable_region(*c01.build(case), params)
