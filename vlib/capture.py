"""Capture the objective exactly as scipy receives it (DESIGN 2.3).

The name ``least_squares`` inside glotaran.optimization.optimizer is replaced by a stub that
receives (fun, x0, bounds, method, ...) and lets the harness call fun(x) at will.
"""

from __future__ import annotations

from contextlib import contextmanager
from unittest import mock

import numpy as np
from scipy.optimize import OptimizeResult


class Captured:
    def __init__(self):
        self.fun = None
        self.x0 = None
        self.kwargs = None
        self.optimizer = None

    #: overwrite, after every evaluation, the array the library returned and the vector it was given (both belong to the caller:
    #: if the library kept a view of either, or handed out a view of its own state, later evaluations show it)
    poison = False

    def __call__(self, x):
        xin = np.array(x, dtype=float, copy=True)
        out = self.fun(xin)
        res = np.array(out, dtype=float, copy=True)
        if self.poison:
            if isinstance(out, np.ndarray) and out.flags.writeable:
                out[...] = np.nan
            xin[...] = np.nan
        return res


def open_objective(scheme, verbose=False):
    """-> Captured (callable x -> penalty vector copy); the Optimizer is kept alive inside."""
    from glotaran.optimization.optimizer import Optimizer

    cap = Captured()

    def stub(fun, x0, **kwargs):
        cap.fun, cap.x0, cap.kwargs = fun, np.array(x0, dtype=float), kwargs
        f0 = np.asarray(fun(np.asarray(x0, dtype=float)))
        return OptimizeResult(x=np.array(x0, dtype=float), fun=f0, jac=np.zeros((f0.size, len(x0))), nfev=1, njev=1,
                              optimality=0.0, message="captured", success=True, status=0, cost=0.5 * float(f0 @ f0))

    with mock.patch("glotaran.optimization.optimizer.least_squares", stub):
        opt = Optimizer(scheme, verbose=verbose, raise_exception=True)
        opt.optimize()
    cap.optimizer = opt
    cap.labels = list(opt._free_parameter_labels)  # noqa: SLF001  (reported as Result.free_parameter_labels)
    return cap


@contextmanager
def recording_least_squares(record: dict):
    """Delegate to the real least_squares while recording what it was given / returned."""
    import scipy.optimize

    real = scipy.optimize.least_squares

    def stub(fun, x0, **kwargs):
        record["x0"] = np.array(x0, dtype=float)
        record["kwargs"] = kwargs
        record["fun"] = fun
        res = real(fun, x0, **kwargs)
        record["result"] = res
        return res

    with mock.patch("glotaran.optimization.optimizer.least_squares", stub):
        yield record
